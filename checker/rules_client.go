package main

import (
	"go/token"
	"go/types"
	"net/textproto"

	"golang.org/x/tools/go/ssa"
)

func init() {
	prop(&PropertySpec{
		ID: "C10", Level: "other",
		Rules: []string{"R10.1", "R10.2", "R10.3", "R10.4", "R10.5", "R01.5"},
		Explanation: "R10.1 after construction the only store to Connection.lastEventID is in the event callback of Connection.read, on its non-error branch, of the yielded event's LastEventID; the iterator is seeded with a load of that field and yields the interpreter's last-event-ID cell; R01.5 that cell is stored only NUL-free id values; " +
			"R10.2 on the retry path resetRequest sets the canonical Last-Event-Id header to lastEventID when non-empty and deletes it otherwise, after the body reset succeeded; R10.3 HTTPClient.Do is dominated by resetRequest() == nil; " +
			"R10.4 resetRequestBody assigns r.Body only GetBody()'s result on its nil-error edge, returns ErrNoGetBody for a real body without GetBody, nil for nil/NoBody, and GetBody's error as is; R10.5 isRetry is only ever stored true, on the path that skips the reset, and read only in resetRequest.",
		NotDecided: "the header value over whole histories as a function (follows from R10.1/R10.2 by argument); requests that themselves carry a Last-Event-ID header.",
	})
	prop(&PropertySpec{
		ID: "C13", Level: "other",
		Rules: []string{"R13.1", "R13.2", "R13.3", "R13.4", "R13.5", "R13.6"},
		Explanation: "R13.1 lockset: every read of callbacks/callbacksAll/callbackID (including operations on maps loaded from them) holds Connection.mu (read or write), every write holds it exclusively, except construction before the value is returned; R13.2 registered callbacks are invoked while the read lock is held (so an unsubscribe that has returned excludes further calls); " +
			"R13.3 each inserted key is the callbackID value read in the same critical section and callbackID is stored +1 before the unlock on every path, both inserters sharing the one counter; R13.4 each remover deletes exactly its own (type, id) entry, and the type's inner map only when it is empty; R13.5 dispatch looks up callbacks with exactly ev.Type, ranges that map and callbacksAll and calls each value once with ev; R13.6 SubscribeEvent registers (through addSubscriber) under exactly the type string it was given, SubscribeMessages under the empty type, SubscribeToAll through addSubscriberToAll, each with the caller's callback and returning the registration's remover, on every path.",
		NotDecided: "stream order seen by callbacks over schedules (single dispatching goroutine by call structure); re-entrancy (a callback calling its own remover under the read lock).",
		Technique:  "static analysis: must-hold lockset dataflow + value provenance on SSA",
	})
	register(&Rule{ID: "R10.1", Title: "only the read callback's non-error branch writes Connection.lastEventID; iterator seeded with it", Floor: 3, Run: r10_1})
	register(&Rule{ID: "R10.2", Title: "retry path sets/deletes the canonical Last-Event-Id header from lastEventID", Floor: 3, Run: r10_2})
	register(&Rule{ID: "R10.3", Title: "request reset dominates HTTPClient.Do", Floor: 1, Run: r10_3})
	register(&Rule{ID: "R10.4", Title: "request body discipline in resetRequestBody", Floor: 4, Run: r10_4})
	register(&Rule{ID: "R10.5", Title: "first-attempt flag isRetry", Floor: 2, Run: r10_5})
	register(&Rule{ID: "R13.1", Title: "lockset of callbacks/callbacksAll/callbackID", Floor: 10, Run: r13_1})
	register(&Rule{ID: "R13.2", Title: "callbacks are invoked under the read lock", Floor: 2, Run: r13_2})
	register(&Rule{ID: "R13.3", Title: "unique callback ids from one counter", Floor: 2, Run: r13_3})
	register(&Rule{ID: "R13.4", Title: "removers delete exactly their own entry", Floor: 2, Run: r13_4})
	register(&Rule{ID: "R13.6", Title: "the exported Subscribe* wrappers register under the type they were given", Floor: 3, Run: r13_6})
	register(&Rule{ID: "R13.5", Title: "dispatch routes by ev.Type and to subscribe-to-all callbacks, once each", Floor: 3, Run: r13_5})
}

// ---------------------------------------------------------------------------
// C10

func r10_1(c *Ctx) {
	P := c.P
	rd := P.Fn("(*Connection).read")
	if rd == nil {
		c.anchor("(*Connection).read")
		return
	}
	// the callback: the closure passed to the iterator
	var cb *ssa.Function
	var site ssa.CallInstruction
	for _, s := range P.staticCallSites(P.Fn("read")) {
		if s.Parent() == rd {
			site = s
		}
	}
	eachInstrDeep(rd, func(in ssa.Instruction) {
		call, ok := in.(*ssa.Call)
		if !ok || site == nil || call.Call.Value != site.Value() || len(call.Call.Args) != 1 {
			return
		}
		if mc, ok := call.Call.Args[0].(*ssa.MakeClosure); ok {
			cb, _ = mc.Fn.(*ssa.Function)
		}
	})
	if site == nil || cb == nil {
		c.anchor("read(...)(callback) in Connection.read")
		return
	}
	n := 0
	for _, a := range P.fieldAccesses("Connection", "lastEventID") {
		if a.Kind == "addr" {
			c.bad(fnLabel(a.Fn)+":addr(lastEventID)", P.ipos(a.Use), "the address of Connection.lastEventID escapes")
			continue
		}
		if a.Kind != "write" {
			continue
		}
		n++
		st := a.Use.(*ssa.Store)
		name := fnLabel(a.Fn) + ":write(lastEventID)"
		if a.Fn != cb {
			c.bad(name, P.ipos(st), "Connection.lastEventID is written outside the event callback of Connection.read: an ID from a cut-off event, or a reset ID, could be sent on reconnect")
			continue
		}
		// value: LastEventID of the yielded event (param 0, through its local copy); on the err == nil branch
		valOK := false
		if base, ok := isFieldLoad(st.Val, "Event", "LastEventID"); ok && cellHoldsOnly(rootAddr(base), cb.Params[0]) {
			valOK = true
		}
		errP := cb.Params[1]
		g := guardedByNil(cb, st.Block(), func(v ssa.Value) bool { return v == ssa.Value(errP) }, true)
		c.check(valOK && g, name, P.ipos(st), "stores the dispatched event's LastEventID on the non-error branch", "the stored value is not the yielded event's LastEventID, or the store is not on the err == nil branch")
		// ... on every path of that branch: an empty ID (the server's reset) is stored like any other
		skipped := false
		for _, ifi := range ifsIn(cb) {
			sn, ok := nilEdge(ifi, func(v ssa.Value) bool { return v == ssa.Value(errP) })
			if !ok {
				continue
			}
			for _, ret := range returnsOf(cb) {
				if reachesAvoiding(atEdge(ifi.Block(), sn), ret, func(in ssa.Instruction) bool { return in == ssa.Instruction(st) }, nil) {
					skipped = true
				}
			}
		}
		// ... and is handed to dispatch on every such path (whether anybody listens is decided per event, under
		// the lock, by dispatch itself)
		{
			var disp ssa.Instruction
			eachInstrDeep(cb, func(in ssa.Instruction) {
				if _, ok := isModCall(in, "(*Connection).dispatch"); ok {
					if li, ok := liftInstr(in, cb); ok {
						disp = li
					}
				}
			})
			dskip := disp == nil
			for _, ifi := range ifsIn(cb) {
				sn, ok := nilEdge(ifi, func(v ssa.Value) bool { return v == ssa.Value(errP) })
				if !ok || disp == nil {
					continue
				}
				for _, ret := range returnsOf(cb) {
					if reachesAvoiding(atEdge(ifi.Block(), sn), ret, func(in ssa.Instruction) bool { return in == disp }, nil) {
						dskip = true
					}
				}
			}
			c.check(!dskip, fnLabel(cb)+":dispatch-unconditional", P.pos(cb.Pos()), "every event delivered without error is handed to dispatch", "an event delivered without error can bypass dispatch (e.g. a `does anyone listen` flag computed once per connection): callbacks subscribed while the connection is open never see it")
		}
		c.check(!skipped, name+":unconditional", P.ipos(st), "every event delivered without error updates the stored ID (also with the empty ID)", "a delivered event can leave Connection.lastEventID unchanged (the store is conditional): an empty id field no longer clears the ID sent on reconnect")
	}
	if n == 0 {
		c.bad(fnLabel(cb)+":write(lastEventID)", P.pos(cb.Pos()), "no store to Connection.lastEventID: reconnects never carry the last received ID")
	}
	// seeded with a load of the same field
	seedOK := false
	if _, ok := isFieldLoad(site.Common().Args[1], "Connection", "lastEventID"); ok {
		seedOK = true
	}
	c.check(seedOK, fnLabel(rd)+":iterator-seed", P.ipos(site), "the iterator is seeded with Connection.lastEventID (persists across connections)", "the iterator is not seeded with Connection.lastEventID: the ID does not persist across connections")
	// inside the iterator the yielded LastEventID is the interpreter's cell
	ip := findIterParts(P)
	if ip == nil || ip.doYield == nil {
		c.anchor("iterator's event yield")
		return
	}
	yOK := false
	eachInstrDeep(ip.doYield, func(in ssa.Instruction) {
		st, ok := in.(*ssa.Store)
		if !ok {
			return
		}
		if _, ok := isFieldSel(st.Addr, "Event", "LastEventID"); !ok {
			return
		}
		if a, ok := loadedFrom(st.Val); ok {
			if fv, ok := a.(*ssa.FreeVar); ok {
				// bound to read's lastEventID parameter cell
				root := cellRoot(fv)
				if al, ok := root.(*ssa.Alloc); ok {
					st2, _, _ := cellStores(al)
					for _, s := range st2 {
						if p, ok := s.(*ssa.Parameter); ok && p.Parent().Name() == "read" {
							yOK = true
						}
					}
				}
			}
		}
	})
	c.check(yOK, fnLabel(ip.doYield)+":yields-id-cell", P.pos(ip.doYield.Pos()), "every yielded event carries the interpreter's last-event-ID cell (seeded by the caller)", "the yielded event's LastEventID is not the interpreter's persistent last-event-ID cell")
	// the connection works on its own deep copy of the request (http.Request.Clone): a shallow copy shares the
	// header map, so the Last-Event-ID one connection sets or deletes shows up in the caller's request and in
	// every other connection made from it
	{
		n := 0
		for _, a := range P.fieldAccesses("Connection", "request") {
			if a.Kind != "write" {
				continue
			}
			n++
			st := a.Use.(*ssa.Store)
			good := false
			for _, sv := range append(sources(st.Val), st.Val) {
				if call, ok := isStaticCall(sv, "(*net/http.Request).Clone"); ok {
					if _, isP := stripPhi(call.Call.Args[0]).(*ssa.Parameter); isP || len(sources(call.Call.Args[0])) > 0 {
						good = true
					}
				}
			}
			c.check(good, fnLabel(a.Fn)+":request-deep-copy", P.ipos(st), "the connection keeps r.Clone(...) of the caller's request", "the connection keeps the caller's request or a shallow copy of it (WithContext): the header map is shared, so reconnect headers leak between connections and into the caller's request")
		}
		if n == 0 {
			c.anchor("a store to Connection.request")
		}
	}
}

func canonicalIsLastEventID(v ssa.Value) (string, bool) {
	s, ok := constString(v)
	if !ok {
		return "", false
	}
	return s, textproto.CanonicalMIMEHeaderKey(s) == "Last-Event-Id"
}

func r10_2(c *Ctx) {
	P := c.P
	fn := P.Fn("(*Connection).resetRequest")
	if fn == nil {
		c.anchor("(*Connection).resetRequest")
		return
	}
	name := fnLabel(fn)
	var set, del []*ssa.Call
	var bodyReset *ssa.Call
	eachInstrDeep(fn, func(in ssa.Instruction) {
		if call, ok := isStaticCall(in, "(net/http.Header).Set"); ok {
			if _, ok := canonicalIsLastEventID(call.Call.Args[1]); ok {
				set = append(set, call)
			}
		}
		if call, ok := isStaticCall(in, "(net/http.Header).Del"); ok {
			if _, ok := canonicalIsLastEventID(call.Call.Args[1]); ok {
				del = append(del, call)
			}
		}
		if call, ok := isModCall(in, "resetRequestBody"); ok {
			bodyReset = call
		}
	})
	isLEID := func(v ssa.Value) bool { _, ok := isFieldLoad(v, "Connection", "lastEventID"); return ok }
	// the empty test
	var emptyE *cfgEdge
	for _, ifi := range ifsIn(fn) {
		cnd := decodeIf(ifi)
		if cnd.Y == nil {
			continue
		}
		s, isS := constString(cnd.Y)
		if isS && s == "" && isLEID(cnd.X) && (cnd.Op == token.EQL || cnd.Op == token.NEQ) {
			emptyE = &cfgEdge{ifi.Block(), cnd.succWhen(cnd.Op == token.EQL)}
		}
	}
	if emptyE == nil || len(set) != 1 || len(del) != 1 {
		c.bad(name+":header", P.pos(fn.Pos()), "resetRequest does not (test lastEventID for emptiness, Set the Last-Event-ID header once, Del it once)")
		return
	}
	hdrOf := func(call *ssa.Call) bool {
		_, ok := isFieldLoad(call.Call.Args[0], "http.Request", "Header")
		return ok
	}
	c.check(edgeDominates(emptyE.From, 1-emptyE.Idx, set[0].Block()) && isLEID(set[0].Call.Args[2]) && hdrOf(set[0]), name+":set", P.ipos(set[0]),
		"Header.Set(Last-Event-ID, c.lastEventID) on the non-empty edge", "the Last-Event-ID header is not set to c.lastEventID exactly when it is non-empty")
	c.check(edgeDominates(emptyE.From, emptyE.Idx, del[0].Block()) && hdrOf(del[0]), name+":del", P.ipos(del[0]),
		"Header.Del(Last-Event-ID) on the empty edge", "the Last-Event-ID header is not deleted when the last event ID is empty: a stale ID keeps being sent")
	// every successful return on the retry path has updated the header (a merged-in body reset must not
	// return before it)
	{
		isFlag := func(v ssa.Value) bool { _, ok := isFieldLoad(v, "Connection", "isRetry"); return ok }
		isHdr := func(in ssa.Instruction) bool { return in == ssa.Instruction(set[0]) || in == ssa.Instruction(del[0]) }
		skipped := false
		for _, ifi := range ifsIn(fn) {
			if sT, ok := boolEdge(ifi, isFlag); ok {
				for _, ret := range returnsOf(fn) {
					nilRet := true
					for _, sv := range sources(ret.Results[0]) {
						if !isNilConst(sv) {
							nilRet = false
						}
					}
					if nilRet && reachesAvoiding(atEdge(ifi.Block(), sT), ret, isHdr, nil) {
						skipped = true
					}
				}
			}
		}
		c.check(!skipped, name+":header-on-every-retry", P.pos(fn.Pos()), "every successful return of a retry has set or deleted the Last-Event-ID header", "a retry can return successfully without updating the Last-Event-ID header (e.g. right after a fresh body was installed): reconnects of requests with a body never carry the last event ID")
	}
	// after the body reset succeeded
	if bodyReset == nil {
		// merged form: the body is re-obtained in place (R10.4 decides its discipline); the header must not
		// be touched on a path on which that failed (GetBody nil for a real body, or GetBody's error)
		var get *ssa.Call
		eachInstrDeep(fn, func(in ssa.Instruction) {
			if call, ok := in.(*ssa.Call); ok && call.Call.StaticCallee() == nil && !call.Call.IsInvoke() {
				if _, ok := isFieldLoad(call.Call.Value, "http.Request", "GetBody"); ok {
					get = call
				}
			}
		})
		if get == nil {
			c.bad(name+":after-body-reset", P.pos(fn.Pos()), "resetRequest does not reset the request body")
		} else {
			getErr := func(v ssa.Value) bool {
				e, ok := v.(*ssa.Extract)
				return ok && e.Index == 1 && e.Tuple == ssa.Value(get)
			}
			leak := false
			for _, ifi := range ifsIn(fn) {
				if sN, ok := nilEdge(ifi, getErr); ok {
					for _, h := range []*ssa.Call{set[0], del[0]} {
						if reachesAvoiding(atEdge(ifi.Block(), 1-sN), h, nil, nil) {
							leak = true
						}
					}
				}
			}
			c.check(!leak && (instrDominates(get, set[0]) || !reachesAvoiding(afterInstr(set[0]), get, nil, nil)), name+":after-body-reset", P.ipos(get),
				"header update only after the body was re-obtained (in place)", "the header is updated although re-obtaining the body failed")
			c.ok(name+":body-reset-error", P.ipos(get), "the in-place body reset's error paths are decided by R10.4")
		}
	} else {
		isBR := func(v ssa.Value) bool { return v == ssa.Value(bodyReset) }
		c.check(guardedByNil(fn, set[0].Block(), isBR, true) && guardedByNil(fn, del[0].Block(), isBR, true), name+":after-body-reset", P.ipos(bodyReset),
			"header update only after the body reset succeeded", "the header is updated although the body reset failed")
		// body reset error returned as is
		retOK := false
		for _, ret := range returnsOf(fn) {
			for _, s := range sources(ret.Results[0]) {
				if s == ssa.Value(bodyReset) && guardedByNil(fn, ret.Block(), isBR, false) {
					retOK = true
				}
			}
		}
		c.check(retOK, name+":body-reset-error", P.ipos(bodyReset), "a body reset error is returned", "a body reset error is not returned: a consumed body would be re-sent")
	}
}

func r10_3(c *Ctx) {
	P := c.P
	fn := P.Fn("(*Connection).doConnect")
	if fn == nil {
		c.anchor("(*Connection).doConnect")
		return
	}
	var do, reset *ssa.Call
	eachInstrDeep(fn, func(in ssa.Instruction) {
		if call, ok := isStaticCall(in, "(*net/http.Client).Do"); ok {
			do = call
		}
		if call, ok := isModCall(in, "(*Connection).resetRequest"); ok {
			reset = call
		}
	})
	name := fnLabel(fn) + ":reset-before-do"
	if do == nil || reset == nil {
		c.bad(name, P.pos(fn.Pos()), "doConnect does not call resetRequest and HTTPClient.Do")
		return
	}
	reqOK := false
	if _, ok := isFieldLoad(do.Call.Args[1], "Connection", "request"); ok {
		reqOK = true
	}
	c.check(guardedByNil(fn, do.Block(), func(v ssa.Value) bool { return v == ssa.Value(reset) }, true) && reqOK, name, P.ipos(do),
		"HTTPClient.Do(c.request) is dominated by resetRequest() == nil", "the request is sent although resetting it failed (a consumed body / stale header is re-sent), or another request is sent")
}

func r10_4(c *Ctx) {
	P := c.P
	// anchored on the GetBody call: the function around it re-obtains the body (resetRequestBody, or
	// resetRequest itself when the helper was merged into it); decided path-wise
	var get *ssa.Call
	for _, f := range P.Funcs {
		if !inSSEPackage(f) || f.Synthetic != "" {
			continue
		}
		eachInstr(f, func(in ssa.Instruction) {
			if call, ok := in.(*ssa.Call); ok && call.Call.StaticCallee() == nil && !call.Call.IsInvoke() {
				if _, ok := isFieldLoad(call.Call.Value, "http.Request", "GetBody"); ok {
					get = call
				}
			}
		})
	}
	if get == nil {
		c.bad("request-body:getbody", "-", "no function of the client calls Request.GetBody(): a consumed body is re-sent on retry")
		return
	}
	fn := get.Parent()
	name := fnLabel(fn)
	reqBase, _ := isFieldLoad(get.Call.Value, "http.Request", "GetBody")
	sameReq := func(b ssa.Value) bool {
		return b == reqBase || sameValue(b, reqBase) || exprShape(b, 0) == exprShape(reqBase, 0)
	}
	getErr := func(v ssa.Value) bool {
		e, ok := v.(*ssa.Extract)
		return ok && e.Index == 1 && e.Tuple == ssa.Value(get)
	}
	getBody := func(v ssa.Value) bool {
		e, ok := v.(*ssa.Extract)
		return ok && e.Index == 0 && e.Tuple == ssa.Value(get)
	}
	isGetBodyFn := func(v ssa.Value) bool {
		b, ok := isFieldLoad(v, "http.Request", "GetBody")
		return ok && sameReq(b)
	}
	isBody := func(v ssa.Value) bool {
		b, ok := isFieldLoad(v, "http.Request", "Body")
		return ok && sameReq(b)
	}
	isNoBody := func(v ssa.Value) bool {
		mi, ok := v.(*ssa.MakeInterface)
		if !ok {
			return false
		}
		a, ok := loadedFrom(mi.X)
		if !ok {
			return false
		}
		g, ok := a.(*ssa.Global)
		return ok && g.Name() == "NoBody" && g.Pkg != nil && g.Pkg.Pkg.Path() == "net/http"
	}
	c.ok(name+":getbody", P.ipos(get), "the request body is re-obtained through GetBody() here")
	paths, okP := abstractPaths(fn, 8192, nil)
	if !okP || len(paths) == 0 {
		c.undecided(name+":paths", P.pos(fn.Pos()), "too many paths (or a loop) in the function that re-obtains the body")
		return
	}
	why := map[string]string{}
	nReal := 0
	for _, p := range paths {
		var bodyNil, bodyNotNil, isNB, notNB, gbNil, gbNonNil, errNil, errNonNil bool
		for e := range p.St.Edges {
			if len(e.From.Instrs) == 0 {
				continue
			}
			ifi, isIf := e.From.Instrs[len(e.From.Instrs)-1].(*ssa.If)
			if !isIf {
				continue
			}
			if sN, ok := nilEdge(ifi, isBody); ok {
				if e.Idx == sN {
					bodyNil = true
				} else {
					bodyNotNil = true
				}
			}
			if sN, ok := nilEdge(ifi, isGetBodyFn); ok {
				if e.Idx == sN {
					gbNil = true
				} else {
					gbNonNil = true
				}
			}
			if sN, ok := nilEdge(ifi, getErr); ok {
				if e.Idx == sN {
					errNil = true
				} else {
					errNonNil = true
				}
			}
			cnd := decodeIf(ifi)
			if cnd.Y != nil && (cnd.Op == token.EQL || cnd.Op == token.NEQ) && ((isBody(cnd.X) && isNoBody(cnd.Y)) || (isBody(cnd.Y) && isNoBody(cnd.X))) {
				if (e.Idx == cnd.succWhen(true)) == (cnd.Op == token.EQL) {
					isNB = true
				} else {
					notNB = true
				}
			}
		}
		bodyReal := bodyNotNil && notNB
		called, stored := false, false
		for _, in := range p.Instrs {
			if in == ssa.Instruction(get) {
				called = true
			}
			if st, ok := in.(*ssa.Store); ok {
				if b, ok := isFieldSel(st.Addr, "http.Request", "Body"); ok && sameReq(b) {
					if getBody(st.Val) && called && errNil {
						stored = true
					} else {
						why["body-write"] = "the request body is assigned something other than a fresh GetBody() result on its nil-error edge"
					}
				}
			}
		}
		if called && !gbNonNil {
			why["getbody-nil-guard"] = "GetBody may be called while nil"
		}
		if !bodyReal {
			if called && !(bodyNil || isNB) {
				// called without having looked at Body: harmless for this rule, R10.4 only constrains real bodies
			}
			continue
		}
		nReal++
		var rets []ssa.Value
		for _, sv := range sources(p.St.resolve(p.Ret.Results[len(p.Ret.Results)-1])) {
			rets = append(rets, sv)
		}
		all := func(pred func(ssa.Value) bool) bool {
			for _, r := range rets {
				if !pred(r) {
					return false
				}
			}
			return len(rets) > 0
		}
		switch {
		case gbNil:
			if !all(func(v ssa.Value) bool { return isGlobalLoad(v, "ErrNoGetBody") }) {
				why["no-getbody"] = "a request with a real body but no GetBody does not end in ErrNoGetBody: the consumed body is re-sent"
			}
		case errNonNil:
			if !all(getErr) {
				why["getbody-error"] = "GetBody's error is not returned as is"
			}
		default:
			if all(isNilConst) && !stored {
				why["success"] = "nil is returned for a request with a real body although no fresh body was installed"
			}
			if !all(isNilConst) && !all(getErr) && stored {
				// an error after a successful reset belongs to the caller's other duties
			}
		}
		if all(func(v ssa.Value) bool { return isGlobalLoad(v, "ErrNoGetBody") }) && !gbNil {
			why["no-getbody"] = "ErrNoGetBody returned without GetBody == nil"
		}
	}
	for _, k := range []string{"body-write", "getbody-nil-guard", "no-getbody", "getbody-error", "success"} {
		c.check(why[k] == "", name+":"+k, P.ipos(get), map[string]string{
			"body-write":        "Body = GetBody()'s result, only on its nil-error edge",
			"getbody-nil-guard": "GetBody is called only when non-nil",
			"no-getbody":        "ErrNoGetBody exactly when a real body exists and GetBody is nil",
			"getbody-error":     "GetBody's own error is returned as is",
			"success":           "nil only for a nil/NoBody body or after a fresh body was installed",
		}[k], why[k])
	}
	if nReal == 0 {
		c.bad(name+":real-body", P.pos(fn.Pos()), "no path distinguishes a real request body (non-nil, not http.NoBody)")
	}
}

// guardedByNoBody: block dominated by the true edge of `body == http.NoBody`, or
// reachable only through the `body == nil` / `body == NoBody` true edges.
func guardedByNoBody(fn *ssa.Function, target *ssa.BasicBlock, isBody func(ssa.Value) bool) bool {
	var edges []cfgEdge
	for _, ifi := range ifsIn(fn) {
		if s, ok := nilEdge(ifi, isBody); ok {
			edges = append(edges, cfgEdge{ifi.Block(), s})
			continue
		}
		cnd := decodeIf(ifi)
		if cnd.Y == nil || cnd.Op != token.EQL {
			continue
		}
		isNoBody := func(v ssa.Value) bool {
			mi, ok := v.(*ssa.MakeInterface)
			if !ok {
				return false
			}
			a, ok := loadedFrom(mi.X)
			if !ok {
				return false
			}
			g, ok := a.(*ssa.Global)
			return ok && g.Name() == "NoBody" && g.Pkg.Pkg.Path() == "net/http"
		}
		if (isBody(cnd.X) && isNoBody(cnd.Y)) || (isBody(cnd.Y) && isNoBody(cnd.X)) {
			edges = append(edges, cfgEdge{ifi.Block(), cnd.succWhen(true)})
		}
	}
	if len(edges) == 0 {
		return false
	}
	blocked := map[cfgEdge]bool{}
	for _, e := range edges {
		blocked[e] = true
	}
	// target unreachable from entry when all those edges are removed
	r := reach([]*ssa.BasicBlock{fn.Blocks[0]}, func(a, b *ssa.BasicBlock, i int) bool { return blocked[cfgEdge{a, i}] }, nil)
	return !r[target]
}

func r10_5(c *Ctx) {
	P := c.P
	fn := P.Fn("(*Connection).resetRequest")
	if fn == nil {
		c.anchor("(*Connection).resetRequest")
		return
	}
	isFlag := func(v ssa.Value) bool { _, ok := isFieldLoad(v, "Connection", "isRetry"); return ok }
	nW := 0
	for _, a := range P.fieldAccesses("Connection", "isRetry") {
		name := fnLabel(a.Fn) + ":" + a.Kind + "(isRetry)"
		switch a.Kind {
		case "write":
			nW++
			st := a.Use.(*ssa.Store)
			b, isC := constBool(st.Val)
			// stored true on the first-attempt path, or unconditionally after the flag was read (the flag is
			// monotone: storing true again on a retry changes nothing)
			afterRead := false
			eachInstr(fn, func(in ssa.Instruction) {
				if u, ok := in.(*ssa.UnOp); ok && isFlag(u) && instrDominates(u, st) {
					afterRead = true
				}
			})
			unreadAfter := true
			eachInstr(fn, func(in ssa.Instruction) {
				if u, ok := in.(*ssa.UnOp); ok && isFlag(u) && reachesAvoiding(afterInstr(st), u, nil, nil) {
					unreadAfter = false
				}
			})
			c.check(a.Fn == fn && isC && b && (guardedByBool(fn, st.Block(), isFlag, false) || (afterRead && unreadAfter)), name, P.ipos(st), "isRetry is stored true (on the first-attempt path, or after it was read)", "isRetry is written elsewhere / reset to false: the first-attempt path (no body reset, no header) is taken again on a retry")
		case "read":
			c.check(a.Fn == fn, name, P.ipos(a.Instr), "read only in resetRequest", "isRetry is read outside resetRequest")
		default:
			c.bad(name, P.ipos(a.Instr), "address of isRetry escapes")
		}
	}
	if nW == 0 {
		c.bad(fnLabel(fn)+":write(isRetry)", P.pos(fn.Pos()), "isRetry is never set: every attempt is treated as the first (no body reset, no Last-Event-ID header)")
	}
	// the first-attempt path returns nil without touching body/header; the retry path is the other edge
	firstOK := false
	for _, ret := range returnsOf(fn) {
		if guardedByBool(fn, ret.Block(), isFlag, false) {
			for _, s := range sources(ret.Results[0]) {
				if isNilConst(s) {
					firstOK = true
				}
			}
		}
	}
	c.check(firstOK, fnLabel(fn)+":first-attempt", P.pos(fn.Pos()), "the first attempt returns nil without resetting", "the first attempt does not return nil")
	// the body reset happens on the retry edge
	var br *ssa.Call
	eachInstrDeep(fn, func(in ssa.Instruction) {
		if call, ok := isModCall(in, "resetRequestBody"); ok {
			br = call
		}
	})
	if br != nil {
		c.check(guardedByBool(fn, br.Block(), isFlag, true), fnLabel(fn)+":retry-path", P.ipos(br), "the body reset runs on every retry (isRetry true)", "the body reset is not on the isRetry edge")
		reqOK := false
		if _, ok := isFieldLoad(br.Call.Args[0], "Connection", "request"); ok {
			reqOK = true
		}
		c.check(reqOK, fnLabel(fn)+":retry-request", P.ipos(br), "resets the connection's own request", "the body reset is applied to another request")
	}
}

// ---------------------------------------------------------------------------
// C13: lockset

const (
	lkNone = 0
	lkR    = 1
	lkW    = 2
)

// locksetOf computes, for every instruction of fn, the must-hold state of
// Connection.mu just before it.
func locksetOf(fn *ssa.Function) map[ssa.Instruction]int {
	ls, _ := locksetOfEx(fn)
	return ls
}

// locksetOfEx also reports the lock calls made while the lock is already held on that path.
func locksetOfEx(fn *ssa.Function) (map[ssa.Instruction]int, []ssa.Instruction) {
	var reacquired []ssa.Instruction
	isMu := func(v ssa.Value) bool { _, ok := isFieldSel(v, "Connection", "mu"); return ok }
	in := map[*ssa.BasicBlock]int{}
	seen := map[*ssa.BasicBlock]bool{}
	out := map[ssa.Instruction]int{}
	entry := fn.Blocks[0]
	in[entry] = lkNone
	// an immediately-invoked function literal runs with the lock state of its call site
	if site := iifeSiteCached(fn); site != nil {
		in[entry] = locksetOf(site.Parent())[site]
	}
	seen[entry] = true
	work := []*ssa.BasicBlock{entry}
	for len(work) > 0 {
		b := work[0]
		work = work[1:]
		st := in[b]
		for _, instr := range b.Instrs {
			out[instr] = st
			switch x := instr.(type) {
			case *ssa.Call:
				if len(x.Call.Args) > 0 && isMu(x.Call.Args[0]) {
					switch calleeName(x) {
					case "(*sync.RWMutex).Lock":
						if st != lkNone {
							reacquired = append(reacquired, instr)
						}
						st = lkW
					case "(*sync.RWMutex).RLock":
						if st != lkNone {
							reacquired = append(reacquired, instr)
						}
						st = lkR
					case "(*sync.RWMutex).Unlock", "(*sync.RWMutex).RUnlock":
						st = lkNone
					}
				}
			case *ssa.RunDefers:
				st = lkNone
			}
		}
		for _, s := range b.Succs {
			nw := st
			if seen[s] {
				if in[s] < nw {
					nw = in[s]
				}
				if nw == in[s] {
					continue
				}
			}
			in[s] = nw
			seen[s] = true
			work = append(work, s)
		}
	}
	return out, reacquired
}

var guardedFields = []string{"callbacks", "callbacksAll", "callbackID"}

// guardedMapValue: v is a map loaded from a guarded field, or an inner map looked up from one.
func guardedMapValue(v ssa.Value) bool {
	return guardedMapValueRec(v, map[ssa.Value]bool{})
}

func guardedMapValueRec(v ssa.Value, seen map[ssa.Value]bool) bool {
	for i := 0; i < 6; i++ {
		if seen[v] {
			return true
		}
		switch x := v.(type) {
		case *ssa.UnOp:
			if o, n, _, ok := fieldOfLoad(x); ok && o == "Connection" && (n == "callbacks" || n == "callbacksAll") {
				return true
			}
			return false
		case *ssa.Lookup:
			v = x.X
		case *ssa.Extract:
			v = x.Tuple
		case *ssa.Phi:
			// `m, ok := c.callbacks[t]; if !ok { m = map…{}; c.callbacks[t] = m }`
			seen[x] = true
			for _, e := range x.Edges {
				if !guardedMapValueRec(e, seen) {
					return false
				}
			}
			return true
		case *ssa.MakeMap:
			// a fresh inner map that is installed in a guarded map
			for _, r := range *x.Referrers() {
				if mu, ok := r.(*ssa.MapUpdate); ok && mu.Value == ssa.Value(x) && guardedMapValueRec(mu.Map, seen) {
					return true
				}
			}
			return false
		default:
			return false
		}
	}
	return false
}

func isConstruction(base ssa.Value) bool {
	al, ok := rootAddr(base).(*ssa.Alloc)
	return ok && al != nil
}

func r13_1(c *Ctx) {
	P := c.P
	for _, fn := range P.Funcs {
		if !inSSEPackage(fn) {
			continue
		}
		var ls map[ssa.Instruction]int
		get := func(in ssa.Instruction) int {
			if ls == nil {
				ls = locksetOf(fn)
			}
			return ls[in]
		}
		need := func(in ssa.Instruction, what string, write bool) {
			st := get(in)
			name := fnLabel(fn) + ":" + what
			if write {
				c.check(st == lkW, name, P.ipos(in), "write under the exclusive lock", "a write to "+what+" does not hold Connection.mu exclusively: data race with dispatch / other (un)subscriptions")
			} else {
				c.check(st >= lkR, name, P.ipos(in), "read under the lock", "a read of "+what+" does not hold Connection.mu: data race with concurrent (un)subscriptions")
			}
		}
		eachInstr(fn, func(in ssa.Instruction) {
			// field-level accesses
			if v, ok := in.(ssa.Value); ok {
				if o, n, base, ok := fieldSel(v); ok && o == "Connection" {
					for _, g := range guardedFields {
						if n != g {
							continue
						}
						if isConstruction(base) {
							c.ok(fnLabel(fn)+":construct("+n+")", P.ipos(in), "construction before the Connection is returned")
							continue
						}
						for _, r := range *v.Referrers() {
							switch u := r.(type) {
							case *ssa.Store:
								if u.Addr == v {
									need(u, "store("+n+")", true)
								}
							case *ssa.UnOp:
								need(u, "load("+n+")", false)
							}
						}
					}
				}
			}
			// operations on guarded maps
			switch x := in.(type) {
			case *ssa.MapUpdate:
				if guardedMapValue(x.Map) {
					need(in, "mapupdate", true)
				}
			case *ssa.Lookup:
				if guardedMapValue(x.X) {
					need(in, "lookup", false)
				}
			case *ssa.Range:
				if guardedMapValue(x.X) {
					need(in, "range", false)
				}
			case *ssa.Next:
				if r, ok := x.Iter.(*ssa.Range); ok && guardedMapValue(r.X) {
					need(in, "range-next", false)
				}
			case *ssa.Call:
				if b, ok := x.Call.Value.(*ssa.Builtin); ok && len(x.Call.Args) > 0 && guardedMapValue(x.Call.Args[0]) {
					switch b.Name() {
					case "delete":
						need(in, "delete", true)
					case "len":
						need(in, "len", false)
					}
				}
			}
		})
	}
	// the lock is never taken again by a goroutine that holds it (sync.RWMutex is not reentrant)
	{
		n := 0
		seenRe := map[ssa.Instruction]bool{}
		var reacquired []ssa.Instruction
		for _, fn := range P.Funcs {
			if !inSSEPackage(fn) {
				continue
			}
			_, re := locksetOfEx(fn)
			for _, in := range re {
				if !seenRe[in] {
					seenRe[in] = true
					reacquired = append(reacquired, in)
				}
			}
		}
		for _, in := range reacquired {
			n++
			c.bad(fnLabel(in.Parent())+":lock-reacquired", P.ipos(in), "Connection.mu is locked while it is already held on this path (directly or in an inlined helper): with a writer waiting in between, the second RLock blocks for ever - dispatch, subscribe and unsubscribe all hang")
		}
		if n == 0 {
			c.ok("Connection.mu:not-reentered", "-", "no path locks Connection.mu while holding it")
		}
	}
	// the callback maps change only by registration and by the removers: nothing else replaces, clears or
	// deletes from them
	{
		n := 0
		allowedFn := func(f *ssa.Function) bool {
			for g := f; g != nil; g = g.Parent() {
				switch g.Name() {
				case "addSubscriber", "addSubscriberToAll", "NewConnection", "SubscribeEvent", "SubscribeToAll", "SubscribeMessages":
					return true
				}
			}
			return false
		}
		for _, fn := range P.Funcs {
			if !inSSEPackage(fn) || allowedFn(fn) {
				continue
			}
			eachInstr(fn, func(in ssa.Instruction) {
				what := ""
				switch x := in.(type) {
				case *ssa.Store:
					if o, nme, _, ok := fieldSel(x.Addr); ok && o == "Connection" && (nme == "callbacks" || nme == "callbacksAll") {
						what = "replaces Connection." + nme
					}
				case *ssa.MapUpdate:
					if guardedMapValue(x.Map) {
						what = "writes an entry of the callback maps"
					}
				case ssa.CallInstruction:
					if b, ok := x.Common().Value.(*ssa.Builtin); ok && len(x.Common().Args) > 0 && guardedMapValue(x.Common().Args[0]) {
						if b.Name() == "clear" || b.Name() == "delete" {
							what = b.Name() + "s from the callback maps"
						}
					}
				}
				if what != "" {
					n++
					c.bad(fnLabel(fn)+":callbacks-changed-elsewhere", P.ipos(in), fnLabel(fn)+" "+what+" outside registration and the removers: callbacks that are still subscribed stop receiving events (or are resurrected)")
				}
			})
		}
		if n == 0 {
			c.ok("Connection.callbacks:writers", "-", "the callback maps are changed only by the registration functions and their removers")
		}
	}
}

func r13_2(c *Ctx) {
	P := c.P
	n := 0
	deferChecked := map[*ssa.Function]bool{}
	for _, fn := range P.Funcs {
		if !inSSEPackage(fn) {
			continue
		}
		var ls map[ssa.Instruction]int
		eachInstr(fn, func(in ssa.Instruction) {
			call, ok := in.(*ssa.Call)
			if !ok || call.Call.IsInvoke() || call.Call.StaticCallee() != nil {
				return
			}
			// callee value: element of a guarded map (range value or lookup)
			isCB := false
			for _, s := range sources(call.Call.Value) {
				if e, ok := s.(*ssa.Extract); ok {
					if nx, ok := e.Tuple.(*ssa.Next); ok {
						if r, ok := nx.Iter.(*ssa.Range); ok && guardedMapValue(r.X) {
							isCB = true
						}
					}
				}
				if lk, ok := s.(*ssa.Lookup); ok && guardedMapValue(lk.X) {
					isCB = true
				}
			}
			if !isCB {
				return
			}
			n++
			if ls == nil {
				ls = locksetOf(fn)
			}
			c.check(ls[in] >= lkR, fnLabel(fn)+":invoke-callback", P.ipos(in), "registered callback invoked while the read lock is held", "a registered callback is invoked without holding Connection.mu: after its unsubscribe function returned it can still be called")
			// user code runs under the lock, so the lock is released by a deferred call: a panicking callback
			// (recovered by the application) must not leave the lock held
			if !deferChecked[fn] {
				deferChecked[fn] = true
				deferred := false
				eachInstr(fn, func(x ssa.Instruction) {
					if d, ok := x.(*ssa.Defer); ok {
						isUnlock := func(callee *ssa.Function) bool {
							return callee != nil && (callee.String() == "(*sync.RWMutex).RUnlock" || callee.String() == "(*sync.RWMutex).Unlock")
						}
						if isUnlock(d.Call.StaticCallee()) {
							deferred = true
						}
						// `defer func() { c.mu.RUnlock() }()`: a deferred literal that releases the lock on every path
						if mc, ok := d.Call.Value.(*ssa.MakeClosure); ok && len(d.Call.Args) == 0 {
							if lit, ok := mc.Fn.(*ssa.Function); ok && lit.Blocks != nil && len(returnsOf(lit)) > 0 {
								unlocks := func(in ssa.Instruction) bool {
									call, isCall := in.(*ssa.Call)
									return isCall && isUnlock(call.Call.StaticCallee())
								}
								all := true
								for _, r := range returnsOf(lit) {
									if reachesAvoiding(entryPoint(lit), r, unlocks, nil) {
										all = false
									}
								}
								if all {
									deferred = true
								}
							}
						}
					}
				})
				c.check(deferred, fnLabel(fn)+":unlock-deferred", P.pos(fn.Pos()), "the lock held while callbacks run is released by a deferred call", "the lock held while user callbacks run is released by a plain call: a callback that panics (and is recovered above Connect) leaves Connection.mu read-locked, so every later unsubscribe blocks for ever and new dispatches stall")
			}
		})
	}
	if n == 0 {
		c.bad("invoke-callback", "-", "no invocation of a registered callback found")
	}
}

func r13_3(c *Ctx) {
	P := c.P
	n := 0
	for _, fn := range P.Funcs {
		if !inSSEPackage(fn) {
			continue
		}
		ls := map[ssa.Instruction]int(nil)
		eachInstr(fn, func(in ssa.Instruction) {
			mu, ok := in.(*ssa.MapUpdate)
			if !ok || !guardedMapValue(mu.Map) {
				return
			}
			if !typeIs(mu.Value.Type(), "sse", "EventCallback") {
				return // insertion of an inner map
			}
			n++
			name := fnLabel(fn) + ":insert-callback"
			if ls == nil {
				ls = locksetOf(fn)
			}
			// key = callbackID loaded in this critical section
			keyOK := false
			var idLoad ssa.Instruction
			for _, s := range sources(mu.Key) {
				if _, ok := isFieldLoad(s, "Connection", "callbackID"); ok {
					keyOK = true
					idLoad = s.(ssa.Instruction)
				} else {
					keyOK = false
					break
				}
			}
			if keyOK && idLoad != nil {
				keyOK = locksetOf(idLoad.Parent())[idLoad] == lkW && instrDominates(idLoad, mu)
			}
			c.check(keyOK, name+":key", P.ipos(mu), "the key is the callbackID value read under the same exclusive lock", "the inserted key is not the callbackID counter read in the same critical section: two callbacks can get the same id and replace each other")
			// increment before unlock on every path
			var inc *ssa.Store
			eachInstrDeep(fn, func(x ssa.Instruction) {
				st, ok := x.(*ssa.Store)
				if !ok {
					return
				}
				if _, ok := isFieldSel(st.Addr, "Connection", "callbackID"); !ok {
					return
				}
				b, ok := st.Val.(*ssa.BinOp)
				if !ok || b.Op != token.ADD {
					return
				}
				k, isK := constInt(b.Y)
				fromCounter := true
				for _, sv := range sources(b.X) {
					if _, ok := isFieldLoad(sv, "Connection", "callbackID"); !ok {
						fromCounter = false
					}
				}
				if fromCounter && isK && k == 1 {
					inc = st
				}
			})
			incOK := inc != nil && locksetOf(inc.Parent())[inc] == lkW
			if incOK {
				isInc := func(x ssa.Instruction) bool { return x == ssa.Instruction(inc) }
				// no path through the insert may avoid the increment (before or after it, same critical section)
				before := reachesAvoiding(entryPoint(fn), mu, isInc, nil)
				for _, ret := range returnsOf(fn) {
					if before && reachesAvoiding(afterInstr(mu), ret, isInc, nil) {
						incOK = false
					}
				}
			}
			c.check(incOK, name+":increment", P.ipos(mu), "callbackID is incremented by 1 under the lock on every path after the insert", "callbackID is not incremented (by 1, under the lock, on every path) after an insert: ids repeat and a later registration overwrites an earlier one")
		})
	}
	if n < 2 {
		c.undecided("insert-callback", "-", "fewer than two callback insert sites found (typed and subscribe-to-all)")
	}
}

func r13_4(c *Ctx) {
	P := c.P
	n := 0
	for _, fn := range P.Funcs {
		if !inSSEPackage(fn) || fn.Parent() == nil || iifeSiteCached(fn) != nil {
			continue
		}
		// a remover: closure of a Connection method that deletes from a guarded map (possibly through an
		// inlined helper, i.e. an immediately-invoked literal inside the closure)
		par := fn.Parent()
		if par.Signature.Recv() == nil || !typeIs(par.Signature.Recv().Type(), "sse", "Connection") {
			continue
		}
		var dels []*ssa.Call
		other := ""
		eachInstrDeep(fn, func(in ssa.Instruction) {
			switch x := in.(type) {
			case *ssa.Call:
				if b, ok := x.Call.Value.(*ssa.Builtin); ok && b.Name() == "delete" && guardedMapValue(x.Call.Args[0]) {
					dels = append(dels, x)
				}
			case *ssa.MapUpdate:
				if guardedMapValue(x.Map) {
					other = "a map update"
				}
			case *ssa.Store:
				if o, nme, _, ok := fieldSel(x.Addr); ok && o == "Connection" {
					other = "a store to Connection." + nme
				}
			}
		})
		if len(dels) == 0 {
			continue
		}
		n++
		name := fnLabel(fn)
		if other != "" {
			c.bad(name+":extra-effect", P.pos(fn.Pos()), "the remover performs "+other+" besides deleting its own entry")
		}
		// a remover returns only after it has held the lock: "after an unsubscribe function has returned its
		// callback is never invoked again" needs every call (also a repeated or concurrent one) to wait for a
		// dispatch in flight
		{
			isLock := func(in ssa.Instruction) bool {
				call, ok := in.(*ssa.Call)
				if !ok || len(call.Call.Args) == 0 {
					return false
				}
				if _, isMu := isFieldSel(call.Call.Args[0], "Connection", "mu"); !isMu {
					return false
				}
				return calleeName(call) == "(*sync.RWMutex).Lock"
			}
			early := false
			for _, ret := range returnsOf(fn) {
				if reachesAvoiding(entryPoint(fn), ret, isLock, nil) {
					early = true
				}
			}
			c.check(!early, name+":returns-after-lock", P.pos(fn.Pos()), "every return of the remover comes after it acquired the lock", "a remover can return without having acquired Connection.mu (e.g. a fast path for repeated calls): a repeated or concurrent call returns while a dispatch still runs the callback")
		}
		// find the parent's insert: key cell and (for typed) event cell
		var insert *ssa.MapUpdate
		eachInstrDeep(par, func(in ssa.Instruction) {
			if mu, ok := in.(*ssa.MapUpdate); ok && guardedMapValue(mu.Map) && typeIs(mu.Value.Type(), "sse", "EventCallback") {
				insert = mu
			}
		})
		if insert == nil {
			c.undecided(name+":own-entry", P.pos(fn.Pos()), "the registering function has no callback insert")
			continue
		}
		capturedSame := func(v ssa.Value, parentVal ssa.Value) bool {
			// v is a load of a free variable bound to the cell that parentVal is loaded from
			a, ok := loadedFrom(v)
			if !ok {
				return false
			}
			pa, ok := loadedFrom(parentVal)
			if !ok {
				return false
			}
			return cellRoot(a) == cellRoot(pa)
		}
		okAll := true
		for _, d := range dels {
			m, k := d.Call.Args[0], d.Call.Args[1]
			switch {
			case isInnerOrAll(m) && capturedSame(k, insert.Key):
				// delete(inner/all, id): the map expression must denote the same map as the insert's
				if !sameMapExpr(m, insert.Map, capturedSame) {
					okAll = false
				}
			case isOuter(m):
				// delete(callbacks, event) only under len(callbacks[event]) == 0, with the registration's event
				idxs := innerMapIndexes(insert.Map)
				if len(idxs) == 0 {
					okAll = false
					break
				}
				for _, ix := range idxs {
					if !capturedSame(k, ix) {
						okAll = false
					}
				}
				if !okAll {
					break
				}
				lk := struct{ Index ssa.Value }{idxs[0]}
				g := false
				var rifs []*ssa.If
				for _, rf := range regionFuncs(fn) {
					rifs = append(rifs, ifsIn(rf)...)
				}
				for _, ifi := range rifs {
					op, kk, succ, ok := cmpConstEdge(ifi, func(v ssa.Value) bool {
						call, ok := v.(*ssa.Call)
						if !ok {
							return false
						}
						b, ok := call.Call.Value.(*ssa.Builtin)
						if !ok || b.Name() != "len" {
							return false
						}
						l2, ok := call.Call.Args[0].(*ssa.Lookup)
						return ok && isOuter(l2.X) && capturedSame(l2.Index, lk.Index)
					})
					_, _, _ = op, kk, succ
					if e, okE := intEdge(ifi, func(v ssa.Value) bool {
						call, ok := v.(*ssa.Call)
						if !ok {
							return false
						}
						b, ok := call.Call.Value.(*ssa.Builtin)
						if !ok || b.Name() != "len" {
							return false
						}
						l2, ok := call.Call.Args[0].(*ssa.Lookup)
						return ok && isOuter(l2.X) && capturedSame(l2.Index, lk.Index)
					}, 0, 0, 0); ok && okE && edgeDominates(ifi.Block(), e, d.Block()) {
						g = true
					}
				}
				if !g {
					okAll = false
				}
			default:
				okAll = false
			}
		}
		c.check(okAll, name+":own-entry", P.pos(fn.Pos()), "the remover deletes exactly the (type, id) entry of its own registration, and the type's inner map only when empty",
			"the remover deletes something other than its own (type, id) entry (or drops a non-empty inner map): other subscriptions are affected")
	}
	if n < 2 {
		c.undecided("removers", "-", "fewer than two remover closures found")
	}
}

func isOuter(m ssa.Value) bool {
	_, n, _, ok := fieldOfLoad(m)
	return ok && n == "callbacks"
}

func isInnerOrAll(m ssa.Value) bool {
	if _, n, _, ok := fieldOfLoad(m); ok && n == "callbacksAll" {
		return true
	}
	return len(innerMapIndexes(m)) > 0
}

func sameMapExpr(a, b ssa.Value, capturedSame func(v, pv ssa.Value) bool) bool {
	if _, n, _, ok := fieldOfLoad(a); ok && n == "callbacksAll" {
		_, n2, _, ok2 := fieldOfLoad(b)
		return ok2 && n2 == "callbacksAll"
	}
	ia, ib := innerMapIndexes(a), innerMapIndexes(b)
	if len(ia) == 0 || len(ib) == 0 {
		return false
	}
	for _, x := range ia {
		for _, y := range ib {
			if !capturedSame(x, y) {
				return false
			}
		}
	}
	return true
}

// innerMapIndexes: v denotes callbacks[k] (a lookup, its comma-ok form, a fresh map installed as
// callbacks[k], or a phi of those); returns the index expressions k (nil if v is something else).
func innerMapIndexes(v ssa.Value) []ssa.Value {
	var out []ssa.Value
	seen := map[ssa.Value]bool{}
	ok := true
	var walk func(v ssa.Value)
	walk = func(v ssa.Value) {
		if seen[v] {
			return
		}
		seen[v] = true
		switch x := v.(type) {
		case *ssa.Lookup:
			if isOuter(x.X) {
				out = append(out, x.Index)
				return
			}
		case *ssa.Extract:
			if lk, isLk := x.Tuple.(*ssa.Lookup); isLk && x.Index == 0 {
				walk(lk)
				return
			}
		case *ssa.Phi:
			for _, e := range x.Edges {
				walk(e)
			}
			return
		case *ssa.MakeMap:
			n := 0
			for _, r := range *x.Referrers() {
				if mu, isMu := r.(*ssa.MapUpdate); isMu && mu.Value == ssa.Value(x) && isOuter(mu.Map) {
					out = append(out, mu.Key)
					n++
				}
			}
			if n == 1 {
				return
			}
		}
		ok = false
	}
	walk(v)
	if !ok {
		return nil
	}
	return out
}

func r13_5(c *Ctx) {
	P := c.P
	fn := P.Fn("(*Connection).dispatch")
	if fn == nil || len(fn.Params) != 2 {
		c.anchor("(*Connection).dispatch(ev)")
		return
	}
	ev := fn.Params[1]
	name := fnLabel(fn)
	isEv := func(v ssa.Value) bool {
		if v == ssa.Value(ev) {
			return true
		}
		if a, ok := loadedFrom(v); ok {
			return cellHoldsOnly(a, ev)
		}
		return false
	}
	isEvType := func(v ssa.Value) bool {
		base, ok := isFieldLoad(v, "Event", "Type")
		return ok && cellHoldsOnly(rootAddr(base), ev)
	}
	nTyped, nAll := 0, 0
	eachInstrDeep(fn, func(in ssa.Instruction) {
		call, ok := in.(*ssa.Call)
		if !ok || call.Call.IsInvoke() || call.Call.StaticCallee() != nil {
			return
		}
		e, ok := call.Call.Value.(*ssa.Extract)
		if !ok {
			return
		}
		nx, ok := e.Tuple.(*ssa.Next)
		if !ok {
			return
		}
		r, ok := nx.Iter.(*ssa.Range)
		if !ok || !guardedMapValue(r.X) {
			return
		}
		cn := name + ":call"
		argOK := len(call.Call.Args) == 1 && isEv(call.Call.Args[0])
		depthOK := len(loopsContaining(fn, call.Block())) == 1
		if lk, ok := r.X.(*ssa.Lookup); ok && isOuter(lk.X) {
			nTyped++
			c.check(isEvType(lk.Index) && argOK && depthOK, cn+"(typed)", P.ipos(call), "callbacks[ev.Type] entries are called once each with ev", "typed callbacks are not looked up with exactly ev.Type / called once with ev")
		} else if _, n, _, ok := fieldOfLoad(r.X); ok && n == "callbacksAll" {
			nAll++
			c.check(argOK && depthOK, cn+"(all)", P.ipos(call), "subscribe-to-all callbacks are called once each with ev", "subscribe-to-all callbacks are not called once with ev")
		}
	})
	c.check(nTyped == 1 && nAll == 1, name+":both-ranges", P.pos(fn.Pos()), "dispatch ranges the typed map and the subscribe-to-all map once each", "dispatch does not range both callback maps exactly once (typed: "+itoa(nTyped)+", all: "+itoa(nAll)+")")
	// no early return that skips a range when callbacks exist: the only pre-range return is under total count == 0
	for _, ret := range returnsOf(fn) {
		// a return not dominated by both ranges' exits must be guarded by (len+len == 0)
		rangesBefore := 0
		eachInstrDeep(fn, func(in ssa.Instruction) {
			if r, ok := in.(*ssa.Range); ok && guardedMapValue(r.X) && instrDominates(r, ret) {
				rangesBefore++
			}
		})
		if rangesBefore >= 2 {
			continue
		}
		g := false
		for _, ifi := range ifsIn(fn) {
			op, k, succ, ok := cmpConstEdge(ifi, func(v ssa.Value) bool {
				b, ok := v.(*ssa.BinOp)
				return ok && b.Op == token.ADD && isLenOfGuarded(b.X) && isLenOfGuarded(b.Y)
			})
			if ok && op == token.EQL && k == 0 && edgeDominates(ifi.Block(), succ, ret.Block()) {
				g = true
			}
		}
		if !g {
			// the same test written per map: len(typed) == 0 && len(all) == 0
			typedEmpty, allEmpty := false, false
			for _, ifi := range ifsIn(fn) {
				var arg ssa.Value
				op, k, succ, ok := cmpConstEdge(ifi, func(v ssa.Value) bool {
					if !isLenOfGuarded(v) {
						return false
					}
					arg = v.(*ssa.Call).Call.Args[0]
					return true
				})
				if !ok {
					continue
				}
				e := -1
				switch {
				case (op == token.EQL && k == 0) || (op == token.LSS && k == 1) || (op == token.LEQ && k == 0):
					e = succ
				case (op == token.NEQ && k == 0) || (op == token.GTR && k == 0) || (op == token.GEQ && k == 1):
					e = 1 - succ
				}
				if e < 0 || !edgeDominates(ifi.Block(), e, ret.Block()) {
					continue
				}
				if _, n, _, isF := fieldOfLoad(arg); isF && n == "callbacksAll" {
					allEmpty = true
				} else {
					for _, src := range sources(arg) {
						if _, isLk := src.(*ssa.Lookup); isLk {
							typedEmpty = true
						}
					}
				}
			}
			g = typedEmpty && allEmpty
		}
		c.check(g, name+":early-return", P.ipos(ret), "the early return is taken only when no callback is registered", "dispatch can return before calling the registered callbacks")
	}
	// the dispatch call in the read callback passes the yielded event
	_ = types.Typ
}

func isLenOfGuarded(v ssa.Value) bool {
	call, ok := v.(*ssa.Call)
	if !ok {
		return false
	}
	b, ok := call.Call.Value.(*ssa.Builtin)
	return ok && b.Name() == "len" && guardedMapValue(call.Call.Args[0])
}

// ---------------------------------------------------------------------------
// R13.6: the exported subscription wrappers

func r13_6(c *Ctx) {
	P := c.P
	type spec struct {
		fn, target string
		typArg     string // "param", "empty", "" (none)
	}
	for _, sp := range []spec{
		{"(*Connection).SubscribeEvent", "(*Connection).addSubscriber", "param"},
		{"(*Connection).SubscribeMessages", "(*Connection).addSubscriber", "empty"},
		{"(*Connection).SubscribeToAll", "(*Connection).addSubscriberToAll", ""},
	} {
		fn := P.Fn(sp.fn)
		if fn == nil {
			c.anchor(sp.fn)
			continue
		}
		name := fnLabel(fn) + ":forwards"
		// follow exported wrappers calling each other (SubscribeMessages -> SubscribeEvent -> addSubscriber)
		var reg *ssa.Call
		typVal := func(call *ssa.Call, i int) ssa.Value { return call.Call.Args[i] }
		cur := fn
		var typ ssa.Value // the type value in terms of fn: a parameter of fn or a constant
		good, why := true, ""
		selfReg := false
		cb := ssa.Value(fn.Params[len(fn.Params)-1])
		for hop := 0; hop < 3 && reg == nil; hop++ {
			var next *ssa.Call
			eachInstrDeep(cur, func(in ssa.Instruction) {
				call, ok := in.(*ssa.Call)
				if !ok {
					return
				}
				switch calleeName(call) {
				case expandName(sp.target):
					reg = call
				case expandName("(*Connection).SubscribeEvent"), expandName("(*Connection).addSubscriber"), expandName("(*Connection).addSubscriberToAll"):
					if next == nil {
						next = call
					}
				}
			})
			if reg != nil {
				next = reg
			}
			if next == nil {
				if P.Fn(sp.target) == nil && hop > 0 || (P.Fn(sp.target) == nil && cur == fn) {
					// the registration helper was merged into the exported method: it registers itself, under
					// the key it is given
					regSelf := true
					isTyp := func(v ssa.Value) bool { return len(cur.Params) == 3 && carriesOnly(v, cur.Params[1]) }
					n := 0
					for _, g := range append([]*ssa.Function{cur}, cur.AnonFuncs...) {
						eachInstr(g, func(in ssa.Instruction) {
							var key ssa.Value
							switch x := in.(type) {
							case *ssa.Lookup:
								if _, ok := isFieldLoad(x.X, "Connection", "callbacks"); ok {
									key = x.Index
								}
							case *ssa.MapUpdate:
								if _, ok := isFieldLoad(x.Map, "Connection", "callbacks"); ok {
									key = x.Key
								}
							}
							if key != nil {
								n++
								if !isTyp(key) {
									regSelf = false
								}
							}
						})
					}
					if sp.target == expandNameShort("(*Connection).addSubscriberToAll") {
						regSelf, n = true, 1
					}
					if regSelf && n > 0 {
						selfReg = true
					} else {
						good, why = false, "the per-type map is indexed with something other than the type given"
					}
				}
				break
			}
			// every return of cur yields next's result, and no return precedes it
			for _, ret := range returnsOf(cur) {
				if len(ret.Results) != 1 {
					continue
				}
				for _, sv := range sources(ret.Results[0]) {
					if sv != ssa.Value(next) {
						good, why = false, "the remover returned is not the registration's"
					}
				}
			}
			// arguments in terms of cur's parameters
			a := next.Call.Args
			if !carriesOnly(a[len(a)-1], cur.Params[len(cur.Params)-1]) && a[len(a)-1] != cb {
				good, why = false, "the caller's callback is not what is registered"
			}
			if len(a) == 3 {
				tv := typVal(next, 1)
				switch {
				case typ == nil && len(cur.Params) == 3 && carriesOnly(tv, cur.Params[1]):
					typ = cur.Params[1]
				case typ == nil && len(cur.Params) == 2:
					if k, isK := constString(tv); isK {
						_ = k
						typ = tv
					} else {
						good, why = false, "the type registered under is not a constant"
					}
				case typ != nil && len(cur.Params) == 3 && carriesOnly(tv, cur.Params[1]):
					// passed through unchanged
				default:
					good, why = false, "the type string is changed on its way to the registration (e.g. one name mapped to another)"
				}
			}
			if reg == nil {
				if callee := next.Call.StaticCallee(); callee != nil {
					cur = callee
				}
			}
		}
		if reg == nil && selfReg {
			if sp.typArg == "empty" {
				if k, isK := constString(typ); !isK || k != "" {
					good, why = false, "unnamed events are not registered under the empty type"
				}
			}
			c.check(good, name, P.pos(fn.Pos()), "registers the caller's callback itself, under the type given (the registration helper is merged into the exported method)", sp.fn+" does not simply register the callback under the type it was given ("+why+")")
			continue
		}
		if reg == nil {
			c.bad(name, P.pos(fn.Pos()), sp.fn+" does not register through "+sp.target)
			continue
		}
		switch sp.typArg {
		case "param":
			if typ != ssa.Value(fn.Params[1]) {
				good, why = false, "the type registered under is not the one given"
			}
		case "empty":
			if k, isK := constString(typ); !isK || k != "" {
				good, why = false, "unnamed events are not registered under the empty type"
			}
		}
		c.check(good, name, P.ipos(reg), "registers the caller's callback under the type given and returns that registration's remover", sp.fn+" does not simply register the callback under the type it was given ("+why+"): callbacks receive events of another type, or miss their own")
	}
}

func expandNameShort(s string) string { return s }

// R20.6: the reconnection code runs on values a server chooses (the retry field reaches the backoff as an
// interval of any size), so it must not call a library function that panics on a non-positive argument —
// (*rand.Rand).Int63n, Int31n, Intn, Perm and their package-level twins — unless the argument was found
// positive on the way there. A float-to-int conversion of a huge interval wraps to a negative number.
func init() {
	register(&Rule{ID: "R20.6", Title: "no argument-panicking random-number call on the retry path without a positivity guard", Floor: 1, Run: r20_6})
}

func r20_6(c *Ctx) {
	P := c.P
	panics := map[string]bool{"Int63n": true, "Int31n": true, "Intn": true, "Perm": true, "Int64N": true, "Int32N": true, "IntN": true, "N": true, "UintN": true, "Uint64N": true, "Uint32N": true}
	n := 0
	for _, fn := range P.Funcs {
		if !inSSEPackage(fn) || fn.Blocks == nil {
			continue
		}
		eachInstr(fn, func(in ssa.Instruction) {
			call, ok := in.(*ssa.Call)
			if !ok {
				return
			}
			callee := call.Call.StaticCallee()
			if callee == nil || callee.Pkg == nil || !(callee.Pkg.Pkg.Path() == "math/rand" || callee.Pkg.Pkg.Path() == "math/rand/v2") || !panics[callee.Name()] {
				return
			}
			n++
			arg := call.Call.Args[len(call.Call.Args)-1]
			name := fnLabel(fn) + ":" + callee.Name()
			if k, isK := constInt(arg); isK && k > 0 {
				c.ok(name, P.ipos(call), "constant positive argument")
				return
			}
			guarded := intGuard(fn, call.Block(), func(v ssa.Value) bool { return v == arg || sameValue(v, arg) }, negInf, 1, posInf)
			c.check(guarded, name, P.ipos(call), "the argument was found positive before the call",
				"rand."+callee.Name()+" panics on a non-positive argument, and this one is not tested: it is computed from the current interval, which a server sets through the retry field (a huge value converted from float wraps to a negative number), so Connect panics when such a connection ends")
		})
	}
	if n == 0 {
		c.ok("client:no-argument-panicking-rand-call", "-", "the package calls no random-number function that panics on its argument")
	}
}
