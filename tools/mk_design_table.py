#!/usr/bin/env python3
# usage: tools/mk_design_table.py [evidence-dir]
# Prints the table of DESIGN.md section 9 (sub-agent changes per property and the rules that report them) and the
# corpus totals, from the self_validation blocks of the thorough evidence.
import collections, glob, json, os, re, sys
ev = sys.argv[1] if len(sys.argv) > 1 else os.path.join(os.path.dirname(__file__), '..', 'evidence')
sub = re.compile(r'^[a-cefghijkln]\d\d-m\d')
def key(r):
    a, b = r[1:].split('.')
    return (int(a), int(b))
print('| property | changes | reporting rules |\n|---|---|---|')
tot = collections.Counter(); ids = collections.defaultdict(set)
for f in sorted(glob.glob(os.path.join(ev, 'C*.json'))):
    e = json.load(open(f)); sv = e['coverage'].get('self_validation')
    if not sv:
        print('| %s | (no thorough evidence) | |' % e['property_id']); continue
    n = 0; rules = set()
    for s in sv['seeded']:
        st = s['status']
        kind = 'other'
        if s['id'].startswith('equiv-'): kind = 'equiv'
        elif s['id'].startswith('refactor-'): kind = 'refactor'
        elif sub.match(s['id']): kind = 'subagent'
        elif re.match(r'^d\d\d-', s['id']): kind = 'own-variant'
        ids[(kind, st.split(' (')[0][:28])].add(s['id'])
        if kind == 'subagent' and st.startswith('detected'):
            n += 1
            for fr in s.get('fired') or []:
                rules.add(fr.split('@')[0])
    print('| %s | %d | %s |' % (e['property_id'], n, ' '.join(sorted(rules, key=key))))
print()
for k in sorted(ids): print(k, len(ids[k]))
