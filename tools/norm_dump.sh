#!/bin/bash
# usage: tools/norm_dump.sh <patch.diff>  — shows what the normalisation pre-pass makes of a patched tree
set -u
PATCH="$(readlink -f "$1")"; HERE="$(cd "$(dirname "$0")/.." && pwd)"
WT=$(mktemp -d /tmp/ssecheck-norm-XXXXXX)
git -C /repo worktree add -q --detach "$WT/repo" HEAD || exit 2
trap 'git -C /repo worktree remove --force "$WT/repo" 2>/dev/null; rm -rf "$WT"' EXIT
git -C "$WT/repo" apply "$PATCH" || exit 3
export GOFLAGS=-mod=mod GOPROXY=off GOSUMDB=off GOTOOLCHAIN=local CGO_ENABLED=0; unset GOWORK
"${SSECHECK_BIN:-$HERE/bin/ssecheck}" -repo "$WT/repo" -normalize-dump
