#!/usr/bin/env python3
"""Re-evaluates every seeded/<id>/patch.diff against the current checks and refreshes meta.json
(checks_that_fire, rules_that_fire, expect, expect_rules). Does not re-run the demos."""
import json, glob, os, re, subprocess, sys
here = os.path.dirname(os.path.dirname(os.path.abspath(__file__)))
for m in sorted(glob.glob(os.path.join(here,'seeded','*','meta.json'))):
    d = json.load(open(m)); pd = os.path.join(os.path.dirname(m),'patch.diff')
    ev = subprocess.run([os.path.join(here,'tools/eval_mutant.sh'), pd], capture_output=True, text=True).stdout
    if 'DOES NOT' in ev:
        print(d['id'], 'NOT APPLICABLE:', ev.strip()[:100]); continue
    props = re.findall(r'^== (C\d+) FIRES', ev, re.M)
    # rules per property
    per = {}
    cur = None
    for line in ev.splitlines():
        mm = re.match(r'^== (C\d+) FIRES', line)
        if mm: cur = mm.group(1); per[cur] = set(); continue
        mm = re.match(r'^(?:violated|undecided) (R[0-9.]+)@', line)
        if mm and cur: per[cur].add(mm.group(1))
    declared = d['properties']
    det = [p for p in declared if p in props]
    rules = sorted(set().union(*[per[p] for p in det])) if det else []
    d['checks_that_fire'] = props
    d['rules_that_fire'] = sorted(set().union(*per.values())) if per else []
    d['fires_on_undeclared_properties'] = [p for p in props if p not in declared]
    old = d.get('expect')
    d['expect'] = 'detected' if len(det) == len(declared) else ('missed' if not det else 'detected')
    d['expect_rules'] = rules
    d['undetected_declared_properties'] = [p for p in declared if p not in props]
    json.dump(d, open(m,'w'), indent=1)
    print(d['id'], d['expect'], 'declared', declared, 'undetected', d['undetected_declared_properties'], 'extra', d['fires_on_undeclared_properties'])
