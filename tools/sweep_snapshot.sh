#!/bin/bash
# usage: tools/sweep_snapshot.sh [out-dir]  — runs every thorough check with a snapshot of the current checker binary
# against /repo, writing evidence into a scratch verification directory (default /tmp/vsweep), so that the checker
# sources can be edited and rebuilt while the sweep runs. Prints a summary of the self-validation at the end.
set -u
HERE="$(cd "$(dirname "$0")/.." && pwd)"
OUT="${1:-/tmp/vsweep}"
rm -rf "$OUT"; mkdir -p "$OUT/evidence"
for f in seeded KNOWN_FINDINGS.txt properties.jsonl; do ln -s "$HERE/$f" "$OUT/$f"; done
cp "$HERE/bin/ssecheck" "$OUT/ssecheck.snapshot"
export GOFLAGS=-mod=mod GOPROXY=off GOSUMDB=off GOTOOLCHAIN=local CGO_ENABLED=0; unset GOWORK
rc=0
for id in $("$OUT/ssecheck.snapshot" -list | awk '{print $1}'); do
  "$OUT/ssecheck.snapshot" -repo /repo -verif "$OUT" -property "$id" -tier thorough || rc=1
done > "$OUT/log.txt" 2>&1
python3 - "$OUT" <<'PY'
import json,glob,collections,sys
out=sys.argv[1]
tot=ok=0; c=collections.Counter(); bad=[]
for f in sorted(glob.glob(out+'/evidence/C*.json')):
    e=json.load(open(f)); sv=e['coverage'].get('self_validation')
    if not sv: continue
    for s in sv['seeded']:
        tot+=1; st=s['status']
        if st.startswith('detected') or st.startswith('silent'): ok+=1
        elif 'documented' in st: c[(s['id'],st[:40])]+=1
        else: bad.append((e['property_id'],s['id'],st[:90],(s.get('fired') or [])[:2]))
print('variants',tot,'ok',ok); print('documented',dict(c)); print('BAD',bad)
PY
grep -c 'thorough:' "$OUT/log.txt"; grep -v ' 0 failed' "$OUT/log.txt" | grep 'thorough:' ; echo "sweep rc=$rc" 
echo SWEEPDONE >> "$OUT/log.txt"
