#!/bin/bash
# validates MANIFEST.json and every evidence file against the schemas
cd "$(dirname "$0")/.."
python3-vt - <<'PY'
import json,jsonschema,glob,sys
m=json.load(open('MANIFEST.json')); jsonschema.validate(m,json.load(open('/root/.vp/MANIFEST.schema.json')))
es=json.load(open('/root/.vp/EVIDENCE.schema.json'))
bad=0
for c in m['checks']:
    try:
        e=json.load(open(c['evidence_file'])); jsonschema.validate(e,es)
        assert e['property_id']==c['property_id'] and e['level']==c['level_claimed']['category']
    except Exception as ex:
        print('BAD',c['evidence_file'],str(ex)[:200]); bad=1
ids=[c['property_id'] for c in m['checks']]+[n['property_id'] for n in m.get('not_applicable',[])]
assert sorted(ids)==['C%02d'%i for i in range(1,21)], ids
print('manifest ok: %d checks, %d not_applicable'%(len(m['checks']),len(m.get('not_applicable',[]))))
sys.exit(bad)
PY
