#!/bin/bash
# usage: tools/confirm_mutant.sh <mutant-dir> <demo-dest-relative-path>
# Confirms in a scratch worktree (outside /repo and /verif) that: the demo passes on the clean tree,
# the patched tree builds, the existing suite passes with the patch, and the demo fails with it.
# Prints a one-line JSON summary.
set -u
D="$(readlink -f "$1")"; DEST="$2"
WT=$(mktemp -d /tmp/ssecheck-confirm-XXXXXX)
git -C /repo worktree add -q --detach "$WT/repo" "${MUT_BASE:-HEAD}" || exit 2
trap 'git -C /repo worktree remove --force "$WT/repo" 2>/dev/null; rm -rf "$WT"' EXIT
export GOFLAGS=-mod=mod GOPROXY=off GOSUMDB=off GOTOOLCHAIN=local; unset GOWORK
cd "$WT/repo"
pkgdir=$(dirname "$DEST"); demo_run=$(grep -oE 'func (Test[A-Za-z0-9_]+)' "$D/demo_test.go" | awk '{print $2}' | paste -sd'|')
cp "$D/demo_test.go" "$DEST"
clean_demo=fail; go test -count=1 -run "^($demo_run)\$" "./$pkgdir" >/tmp/confirm_clean.log 2>&1 && clean_demo=pass
rm -f "$DEST"
git apply "$D/patch.diff" 2>/dev/null || git apply -3 "$D/patch.diff" 2>/dev/null || { echo '{"applies":false}'; exit 3; }
build=fail; go build ./... >/dev/null 2>&1 && build=ok
suite=fail
for i in 1 2 3; do go test -count=1 ./... >/tmp/confirm_suite.log 2>&1 && { suite=pass; break; }; done
cp "$D/demo_test.go" "$DEST"
mut_demo=pass; go test -count=1 -run "^($demo_run)\$" "./$pkgdir" >/tmp/confirm_mut.log 2>&1 || mut_demo=fail
echo "{\"applies\":true,\"build\":\"$build\",\"existing_suite_with_patch\":\"$suite\",\"demo_on_clean\":\"$clean_demo\",\"demo_with_patch\":\"$mut_demo\"}"
