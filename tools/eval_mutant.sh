#!/bin/bash
# usage: tools/eval_mutant.sh <patch.diff> [quick|thorough]
# Applies a patch to a scratch worktree of /repo (outside /repo and /verif), runs every
# property check against it with a scratch verif dir (so committed evidence is untouched),
# prints which properties/rules fire, and removes the scratch worktree again.
set -u
PATCH="$(readlink -f "$1")"; TIER="${2:-quick}" # (ignored: the evaluation loads the tree once and runs every rule)
HERE="$(cd "$(dirname "$0")/.." && pwd)"
WT=$(mktemp -d /tmp/ssecheck-eval-XXXXXX); EV=$(mktemp -d /tmp/ssecheck-evalverif-XXXXXX)
BASE="${MUT_BASE:-HEAD}"
git -C /repo worktree add -q --detach "$WT/repo" "$BASE" || exit 2
cleanup() { git -C /repo worktree remove --force "$WT/repo" 2>/dev/null; rm -rf "$WT" "$EV"; }
trap cleanup EXIT
if ! git -C "$WT/repo" apply "$PATCH" 2>/dev/null; then
  if ! git -C "$WT/repo" apply -3 "$PATCH" 2>/dev/null; then echo "PATCH DOES NOT APPLY to $BASE (set MUT_BASE=<commit> to evaluate against its own base)"; exit 3; fi
fi
cp "$HERE/KNOWN_FINDINGS.txt" "$EV/" 2>/dev/null
export GOFLAGS=-mod=mod GOPROXY=off GOSUMDB=off GOTOOLCHAIN=local CGO_ENABLED=0; unset GOWORK
( cd "$WT/repo" && go build ./... ) || { echo "MUTANT DOES NOT BUILD"; exit 4; }
"${SSECHECK_BIN:-$HERE/bin/ssecheck}" -repo "$WT/repo" -verif "$EV" -eval 2>&1 | sed "s#$EV/##" | cut -c1-400
exit 0
