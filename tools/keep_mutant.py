#!/usr/bin/env python3
"""usage: tools/keep_mutant.py <src-dir> <id> <props,comma> <demo-dest> <what it needs to manifest>
Confirms the mutant (tools/confirm_mutant.sh), evaluates the checks against it (tools/eval_mutant.sh),
and stores it as /verif/seeded/<id>/ {patch.diff, demo_test.go, README.md, meta.json}."""
import sys, os, json, subprocess, shutil, re
src, mid, props, dest, needs = sys.argv[1:6]
here = os.path.dirname(os.path.dirname(os.path.abspath(__file__)))
conf = subprocess.run([os.path.join(here,'tools/confirm_mutant.sh'), src, dest], capture_output=True, text=True).stdout.strip().splitlines()[-1]
conf = json.loads(conf)
ok = conf.get('applies') and conf['build']=='ok' and conf['existing_suite_with_patch']=='pass' and conf['demo_on_clean']=='pass' and conf['demo_with_patch']=='fail'
print('confirm:', conf, 'OK' if ok else 'NOT CONFIRMED')
if not ok:
    sys.exit(1)
ev = subprocess.run([os.path.join(here,'tools/eval_mutant.sh'), os.path.join(src,'patch.diff')], capture_output=True, text=True).stdout
fired_props = re.findall(r'^== (C\d+) FIRES', ev, re.M)
fired_rules = sorted(set(re.findall(r'^(?:violated|undecided) (R[0-9.]+)@', ev, re.M)))
print(ev)
plist = props.split(',')
detected_for = [p for p in plist if p in fired_props]
out = os.path.join(here,'seeded',mid)
os.makedirs(out, exist_ok=True)
shutil.copy(os.path.join(src,'patch.diff'), out)
shutil.copy(os.path.join(src,'demo_test.go'), out)
if os.path.exists(os.path.join(src,'README.md')): shutil.copy(os.path.join(src,'README.md'), out)
meta = {
 'id': mid, 'properties': plist, 'source': 'independent sub-agent (given only the property text and a scratch worktree)',
 'needs_to_manifest': needs, 'demo_file': dest,
 'expect': 'detected' if detected_for else 'missed',
 'expect_rules': fired_rules if detected_for else [],
 'checks_that_fire': fired_props, 'rules_that_fire': fired_rules,
 'confirmed': conf,
 'what_was_run': ['tools/confirm_mutant.sh (scratch worktree: demo passes on clean tree; patched tree builds; go test ./... passes with patch; demo fails with patch)',
                  'tools/eval_mutant.sh (all 20 quick checks against the patched scratch worktree)'],
}
json.dump(meta, open(os.path.join(out,'meta.json'),'w'), indent=1)
print('kept as', out, '->', meta['expect'], fired_rules)
